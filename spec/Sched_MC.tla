------------------------------ MODULE Sched_MC ------------------------------
(* Design check of Sched.tla: all small schedules. Scripts are sequences of abstract instructions *)
(*   <<"m">> marker   <<"sl">> sleep D   <<"sp", j>> spawn script j   <<"te", j>> terminate j      *)
(*   <<"sd", j>> poll scriptDone j                                                                 *)
(*   <<"fs", f>> make condition f true   <<"wu", f>> waitUntil condition f holds (evaluates the     *)
(*   condition; false: suspended for D, evaluated again when resumed - WaitCheck = FALSE is the     *)
(*   deviation found in the pinned code: the wait ends whatever the condition yields)               *)
EXTENDS Sched

CONSTANTS Slice, MaxVisits, WaitCheck

Ids == 1..4
D == 2
Inf == 1000

\* configurations: initial scripts and the bodies of all scripts (4 = only ever spawned)
Bodies == {
  [i \in Ids |-> IF i = 1 THEN <<<<"m">>, <<"m">>, <<"m">>>> ELSE IF i = 2 THEN <<<<"m">>>> ELSE IF i = 3 THEN <<<<"m">>, <<"m">>>> ELSE <<<<"m">>>>],
  [i \in Ids |-> IF i = 1 THEN <<<<"m">>, <<"sp", 4>>, <<"m">>>> ELSE IF i = 2 THEN <<<<"m">>>> ELSE IF i = 3 THEN <<<<"m">>, <<"m">>, <<"m">>>> ELSE <<<<"m">>, <<"m">>>>],
  [i \in Ids |-> IF i = 1 THEN <<<<"sl">>, <<"m">>>> ELSE IF i = 2 THEN <<<<"m">>, <<"m">>, <<"m">>>> ELSE IF i = 3 THEN <<<<"m">>>> ELSE <<<<"m">>>>],
  [i \in Ids |-> IF i = 1 THEN <<<<"m">>, <<"te", 3>>, <<"m">>, <<"sd", 3>>>> ELSE IF i = 2 THEN <<<<"m">>>> ELSE IF i = 3 THEN <<<<"m">>, <<"m">>, <<"m">>, <<"m">>>> ELSE <<<<"m">>>>],
  [i \in Ids |-> IF i = 1 THEN <<<<"sp", 4>>, <<"sd", 4>>, <<"sl">>, <<"sd", 4>>, <<"sd", 2>>>> ELSE IF i = 2 THEN <<<<"m">>>> ELSE IF i = 3 THEN <<<<"sl">>, <<"m">>>> ELSE <<<<"m">>, <<"sl">>, <<"m">>>>],
  [i \in Ids |-> IF i = 1 THEN <<<<"wu", 1>>, <<"m">>>> ELSE IF i = 2 THEN <<<<"m">>, <<"m">>, <<"fs", 1>>>> ELSE IF i = 3 THEN <<<<"m">>>> ELSE <<<<"m">>>>],
  [i \in Ids |-> IF i = 1 THEN <<<<"m">>, <<"wu", 1>>, <<"m">>>> ELSE IF i = 2 THEN <<<<"sl">>, <<"fs", 1>>, <<"m">>>> ELSE IF i = 3 THEN <<<<"wu", 1>>, <<"m">>>> ELSE <<<<"m">>>>]
}

VARIABLES body, s, pc, budget, phase, born, died, marks, polls, tdone, held, passes
vars == <<body, s, pc, budget, phase, born, died, marks, polls, tdone, held, passes>>

Ended(id) == pc[id] > Len(body[id])

Init == /\ body \in Bodies
        /\ \E n \in 2..3 :
             s = [order |-> [i \in 1..n |-> i], cur |-> 0, clock |-> 0, wake |-> [i \in Ids |-> 0], susp |-> [i \in Ids |-> FALSE],
                  term |-> [i \in Ids |-> FALSE], done |-> [i \in Ids |-> FALSE], hist |-> <<>>]
        /\ pc = [i \in Ids |-> 1] /\ budget = 0 /\ phase = "pick"
        /\ born = [i \in Ids |-> 0] /\ died = [i \in Ids |-> Inf]
        /\ marks = <<>> /\ polls = <<>> /\ tdone = [i \in Ids |-> Inf]
        /\ held = {} /\ passes = <<>>      \* conditions that hold; waits that ended: [f, held - did the condition hold?]

\* the loop visits the next script
Pick ==
    /\ phase = "pick" /\ s.order # <<>> /\ Len(s.hist) < MaxVisits
    /\ LET id == NextScript(s)
           sleeping == s.susp[id] /\ s.wake[id] > s.clock /\ WakeCheck
           killed == TerminateStops /\ s.term[id]
       IN /\ s' = [Visit(s, ~sleeping) EXCEPT !.clock = IF s.susp[id] THEN s.clock + 1 ELSE s.clock,   \* the wake-up test reads the clock
                                              !.susp[id] = IF sleeping THEN TRUE ELSE FALSE]
          /\ budget' = IF sleeping THEN 0 ELSE Slice
          /\ pc' = IF killed /\ ~sleeping THEN [pc EXCEPT ![id] = Len(body[id]) + 1] ELSE pc   \* a terminated script executes nothing more
          /\ phase' = "slice"
    /\ UNCHANGED <<body, born, died, marks, polls, tdone, held, passes>>

Cur == s.order[s.cur]

Exec ==
    /\ phase = "slice" /\ budget > 0 /\ ~Ended(Cur) /\ ~s.susp[Cur]
    /\ LET id == Cur ins == body[id][pc[id]]
           waits == ins[1] = "wu" /\ ins[2] \notin held /\ WaitCheck      \* condition false: suspend, evaluate again later
       IN
       /\ pc' = IF waits THEN pc ELSE [pc EXCEPT ![id] = pc[id] + 1]
       /\ budget' = budget - 1
       /\ held' = IF ins[1] = "fs" THEN held \cup {ins[2]} ELSE held
       /\ passes' = IF ins[1] = "wu" /\ ~waits THEN Append(passes, [f |-> ins[2], held |-> ins[2] \in held]) ELSE passes
       /\ CASE ins[1] = "m" -> marks' = Append(marks, [id |-> id, step |-> pc[id], at |-> Len(s.hist)]) /\ UNCHANGED <<s, born, polls, tdone>>
            [] ins[1] = "sl" -> s' = [s EXCEPT !.susp[id] = TRUE, !.wake[id] = s.clock + D] /\ UNCHANGED <<marks, born, polls, tdone>>
            [] ins[1] = "sp" -> s' = SpawnS(s, ins[2]) /\ born' = [born EXCEPT ![ins[2]] = Len(s.hist)] /\ UNCHANGED <<marks, polls, tdone>>
            [] ins[1] = "te" -> s' = [s EXCEPT !.term[ins[2]] = TRUE] /\ tdone' = [tdone EXCEPT ![ins[2]] = Len(marks)] /\ UNCHANGED <<marks, born, polls>>
            [] ins[1] = "fs" -> UNCHANGED <<s, marks, born, polls, tdone>>
            [] ins[1] = "wu" -> s' = (IF waits THEN [s EXCEPT !.susp[id] = TRUE, !.wake[id] = s.clock + D] ELSE s) /\ UNCHANGED <<marks, born, polls, tdone>>
            [] ins[1] = "sd" -> polls' = Append(polls, [target |-> ins[2], val |-> s.done[ins[2]], ended |-> Ended(ins[2]), gone |-> ins[2] \notin Elems(s.order)])
                                /\ UNCHANGED <<s, marks, born, tdone>>
    /\ UNCHANGED <<body, phase, died>>

EndSlice ==
    /\ phase = "slice" /\ (budget = 0 \/ Ended(Cur) \/ s.susp[Cur])
    /\ IF Ended(Cur) /\ ~s.susp[Cur]
       THEN /\ s' = [EraseS(s) EXCEPT !.done[Cur] = TRUE] /\ died' = [died EXCEPT ![Cur] = Len(s.hist)]
       ELSE UNCHANGED <<s, died>>
    /\ phase' = "pick" /\ budget' = 0
    /\ UNCHANGED <<body, pc, born, marks, polls, tdone, held, passes>>

Next == Pick \/ Exec \/ EndSlice
Spec == Init /\ [][Next]_vars

\* ---- invariants ----
Alive == [i \in Ids |-> <<born[i], died[i]>>]
InvRoundRobin == RoundRobin(s.hist, Alive)
InvNoEarlyWake == NoEarlyWake(s.hist)
InvScriptDoneTruth == \A i \in 1..Len(polls) : (polls[i].gone /\ polls[i].ended => polls[i].val) /\ (~polls[i].ended => ~polls[i].val)
InvTerminateEffective == \A i \in 1..Len(marks) : \A id \in Ids :
    (marks[i].id = id /\ tdone[id] # Inf /\ i > tdone[id]) =>
        \* the mark belongs to the slice in which the target was terminated or... the target must not have been visited since
        ~ \E v \in 1..Len(s.hist) : s.hist[v].id = id /\ s.hist[v].ran /\ v > (IF tdone[id] = 0 THEN 0 ELSE marks[tdone[id]].at) /\ v <= marks[i].at /\ v # marks[i].at
InvWaitHolds == \A i \in 1..Len(passes) : WaitHolds(passes[i].f, [f \in Ids |-> passes[i].held])
InvIsolation == \A i, j \in 1..Len(marks) : (i < j /\ marks[i].id = marks[j].id) => marks[i].step < marks[j].step
=============================================================================
