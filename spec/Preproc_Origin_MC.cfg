SPECIFICATION Spec
CONSTANTS
  Depth = 2
  Emit = FALSE
  Dev = {}
  NestMode = "all"
INVARIANTS InvLine InvFiles
