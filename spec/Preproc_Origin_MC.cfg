SPECIFICATION Spec
CONSTANTS
  Depth = 2
  Emit = FALSE
  Dev = {}
INVARIANTS InvLine InvFiles
