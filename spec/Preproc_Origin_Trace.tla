------------------------ MODULE Preproc_Origin_Trace ------------------------
(* C14: judges the positions the real code reports (driver command `diag`) *)
(* against the origin computed by Preproc_Origin.tla.  Log (NDJSON, TRACE):*)
(*   {"e":"Reset","id":..}                                                 *)
(*   {"e":"Obs","id":..,"src":<layout source>,"files":[[name,text]..],     *)
(*    "stage":..,"diags":[{lvl,code,L,C,file}],"frames":[{L,C,file}],      *)
(*    "lm":{set,L,file}}                                                   *)
(*   {"e":"Crash","id":..,"why":..}                                        *)
(* Total validation: an unexplained case goes to `bad` with the name of    *)
(* the formula violated and the construct: the kind of the first layout    *)
(* element that makes the code model drift when the code model predicts    *)
(* exactly the reported line, "unexplained" otherwise.                     *)
EXTENDS Preproc_Origin, Json, IOUtils

Log == ndJsonDeserialize(IOEnv.TRACE)

VARIABLES l, dead, bad, nops, done
tvars == <<l, dead, bad, nops, done>>

Errors(e) == SelectSeq(e.diags, LAMBDA d : d.lvl <= 1)
\* every position the report names: error/fatal messages and stack-trace entries
Positions(e) == [i \in 1..Len(Errors(e)) |-> [file |-> Errors(e)[i].file, L |-> Errors(e)[i].L, C |-> Errors(e)[i].C]] \o e.frames
All(seq, Pr(_)) == \A i \in 1..Len(seq) : Pr(seq[i])

\* the formulas an observation contradicts (each judged on its own, so that a line drift does not
\* hide a wrong file or column in the same case)
Whys(e) ==
    LET s == e.src
        ps == Positions(e)
        one(c, w) == IF c THEN <<w>> ELSE <<>>
    IN IF e.files # Files(s) THEN <<"MACHINERY-Binding">>
       ELSE IF IsLineMacro(s.fault.kind)
       \* the source of a linemacro case is clean: a position named by an error names no offending token
       THEN (IF Len(ps) > 0 THEN <<"CleanSourceDiagnosed">>
             ELSE IF ~e.lm.set THEN <<"MACHINERY-LineMacroNotEvaluated">>
             ELSE one(~FileMacro(s, e.lm), "FileMacro") \o one(~LineMacro(s, e.lm), "LineMacro"))
       ELSE IF Len(ps) = 0 THEN <<"MACHINERY-NoDiagnostic">>
       ELSE one(~All(ps, LAMBDA p : FilePreserved(s, p)), "FilePreserved")
            \o one(~All(ps, LAMBDA p : LinePreserved(s, p)), "LinePreserved")
            \* messages and the innermost stack-trace entry name the culprit; the entries of calling frames - the last entries
            \* of the stack trace, one calling frame when the fault is raised inside a block - name the call site
            \o one(~(All(Positions([e EXCEPT !.frames = <<>>]), LAMBDA p : ColumnPreserved(s, p))
                      /\ \E k \in 0..Len(e.frames) :
                            /\ InBlock(s.fault.kind) => k = Len(e.frames) - 1
                            /\ All(SubSeq(e.frames, 1, k), LAMBDA p : ColumnPreserved(s, p))
                            /\ All(SubSeq(e.frames, k + 1, Len(e.frames)), LAMBDA p : CallColumnPreserved(s, p))), "ColumnPreserved")

LastKind(s) == LET lay == IF Len(s.nest) > 0 THEN s.nest[Len(s.nest)] ELSE s.lay
               IN IF Len(lay) = 0 THEN "file-start" ELSE lay[Len(lay)].k
Construct(e, w) ==
    LET s == e.src
        ps == Positions(e)
        code == {"OneNewlinePerDirective"}
    IN IF w = "LinePreserved" /\ All(ps, LAMBDA p : ExplainedByCodeModel(s, p)) /\ Drift(s, code) # ""
       THEN Drift(s, code)
       ELSE IF w = "LineMacro" /\ e.lm.L = Believed(s, code).line /\ Drift(s, code) # "" THEN Drift(s, code)
       ELSE IF w \in {"LinePreserved", "LineMacro", "FilePreserved", "FileMacro", "CleanSourceDiagnosed"} THEN "unexplained-since-" \o LastMarker(s)
       ELSE s.fault.kind

TraceInit == l = 1 /\ dead = FALSE /\ bad = <<>> /\ nops = 0 /\ done = FALSE

Consume ==
    /\ l <= Len(Log)
    /\ l' = l + 1
    /\ UNCHANGED done
    /\ LET e == Log[l] IN
       CASE e.e = "Reset" -> dead' = FALSE /\ UNCHANGED <<bad, nops>>
         [] e.e = "Crash" ->
                /\ bad' = IF dead THEN bad ELSE Append(bad, [id |-> e.id, line |-> l, why |-> "Crash", op |-> e.why, want |-> 0, got |-> 0])
                /\ dead' = TRUE /\ UNCHANGED nops
         [] e.e = "Obs" /\ ~dead ->
                LET ws == Whys(e) IN
                IF Len(ws) = 0 THEN nops' = nops + 1 /\ UNCHANGED <<dead, bad>>
                ELSE /\ bad' = bad \o [j \in 1..Len(ws) |->
                                       [id |-> e.id, line |-> l, why |-> ws[j],
                                        op |-> IF ws[j] \in {"MACHINERY-Binding", "MACHINERY-NoDiagnostic", "MACHINERY-LineMacroNotEvaluated"} THEN "-" ELSE Construct(e, ws[j]),
                                        want |-> Origin(e.src).line,
                                        got |-> IF IsLineMacro(e.src.fault.kind) THEN e.lm.L
                                                ELSE IF Len(Positions(e)) > 0 THEN Positions(e)[1].L ELSE 0]]
                     /\ dead' = TRUE /\ UNCHANGED nops
         [] OTHER -> UNCHANGED <<dead, bad, nops>>

Finish ==
    /\ l = Len(Log) + 1
    /\ ~done
    /\ done' = TRUE
    /\ PrintT("VERDICT " \o ToJson([lines |-> Len(Log), ops |-> nops, bad |-> bad]))
    /\ UNCHANGED <<l, dead, bad, nops>>

TraceSpec == TraceInit /\ [][Consume \/ Finish]_tvars
=============================================================================
