----------------------------- MODULE Limits_MC -----------------------------
(* Design check of Limits.tla: runs of length `needed` (or endless = 99), idle gaps, sleeping phases. *)
EXTENDS Limits

CONSTANTS Max, Slack, Cap,
          EvalIsOwnExecution,       \* TRUE ideal: an expression evaluated between runs (runtime::evaluate_expression, __EVAL) has a budget and
                                    \* an exit request of its own; FALSE: it finds the exit request / budget the last run left (and never ends)
          RefusedStartKeepsBudget,  \* TRUE ideal; FALSE: a start request refused because a run is in progress renews that run's budget
          NestedEvalSharesBudget    \* TRUE ideal: an expression evaluated while a run is in progress (a script preprocesses a text with __EVAL)
                                    \* belongs to that run; FALSE: it gets a budget of its own, one per evaluation

VARIABLES clock, created, budgetStart, phase, cur, runs, loop, idled,
          exitreq,     \* the exit request: set by the deadline abort, cleared when a run starts
          saved        \* what an evaluation put aside: [exitreq, budgetStart]
vars == <<clock, created, budgetStart, phase, cur, runs, loop, idled, exitreq, saved>>

Needs == {2, 4, 99}          \* instructions the run wants to execute (99 = never finishes)
Gaps == {0, 10}

Init == /\ clock = 0 /\ created = 0 /\ budgetStart = 0 /\ phase = "idle" /\ runs = <<>>
        /\ cur = [start |-> 0, needed |-> 0, executed |-> 0, sleepleft |-> 0, total |-> 0]
        /\ loop = [iters |-> 0, counted |-> 0, body |-> "none", done |-> TRUE] /\ idled = FALSE
        /\ exitreq = FALSE /\ saved = [exitreq |-> FALSE, budgetStart |-> 0]

Idle == \E g \in Gaps : phase = "idle" /\ ~idled /\ Len(runs) < 3 /\ clock' = clock + g /\ idled' = TRUE /\ UNCHANGED <<created, budgetStart, phase, cur, runs, loop, exitreq, saved>>

RunBegin == \E n \in Needs, sl \in {0, 8, 20} :
    /\ phase = "idle" /\ Len(runs) < 3
    /\ phase' = "run"
    /\ budgetStart' = IF BudgetFromRunStart THEN clock ELSE budgetStart
    /\ cur' = [start |-> clock, needed |-> n, executed |-> 0, sleepleft |-> sl, total |-> IF n = 99 THEN 99 ELSE n + sl]
    /\ exitreq' = FALSE
    /\ idled' = FALSE /\ UNCHANGED <<clock, created, runs, loop, saved>>

\* the embedder evaluates an expression between two runs (what preprocessing `__EVAL` does)
EvalBegin == \E n \in {2, 99} :
    /\ phase = "idle" /\ Len(runs) < 3
    /\ phase' = "eval"
    /\ saved' = [exitreq |-> exitreq, budgetStart |-> budgetStart]
    /\ exitreq' = IF EvalIsOwnExecution THEN FALSE ELSE exitreq
    /\ budgetStart' = IF EvalIsOwnExecution THEN clock ELSE budgetStart
    /\ cur' = [start |-> clock, needed |-> n, executed |-> 0, sleepleft |-> 0, total |-> n]
    /\ idled' = FALSE /\ UNCHANGED <<clock, created, runs, loop>>

Expired(t) == Max > 0 /\ t > budgetStart + Max

Finish(aborted, reported, t) ==
    /\ runs' = Append(runs, [start |-> cur.start, end |-> t, max |-> Max, aborted |-> aborted, reported |-> reported, nctx |-> 0,
                             executed |-> IF cur.needed = 99 THEN cur.executed ELSE cur.executed + (cur.total - cur.needed - cur.sleepleft), needed |-> cur.total])
    /\ exitreq' = IF phase = "eval" /\ EvalIsOwnExecution THEN saved.exitreq ELSE (aborted \/ exitreq)
    /\ budgetStart' = IF phase = "eval" /\ EvalIsOwnExecution THEN saved.budgetStart ELSE budgetStart
    /\ phase' = "idle" /\ UNCHANGED <<created, cur, loop, idled, saved>>

\* before every instruction the deadline test reads the clock
Instr == /\ phase = "run" /\ cur.sleepleft = 0 /\ cur.executed < cur.needed
         /\ LET t == clock + 1 IN
            IF Expired(t) THEN clock' = t /\ Finish(TRUE, TRUE, t)
            ELSE clock' = t /\ cur' = [cur EXCEPT !.executed = cur.executed + 1] /\ UNCHANGED <<created, budgetStart, phase, runs, loop, idled, exitreq, saved>>

\* a script asks the running VM to start (vmctrl__ "start"): refused, an instruction like any other
StartRequest == /\ phase = "run" /\ cur.sleepleft = 0 /\ cur.executed < cur.needed /\ cur.needed = 99
                /\ ~RefusedStartKeepsBudget /\ budgetStart # clock
                /\ budgetStart' = clock
                /\ UNCHANGED <<clock, created, phase, cur, runs, loop, idled, exitreq, saved>>

\* a script of the run has an expression evaluated (inside one operator call): instructions like any other
NestedEval == /\ phase = "run" /\ cur.sleepleft = 0 /\ cur.executed < cur.needed /\ cur.needed = 99
              /\ ~NestedEvalSharesBudget /\ budgetStart # clock
              /\ budgetStart' = clock
              /\ UNCHANGED <<clock, created, phase, cur, runs, loop, idled, exitreq, saved>>

\* one step of an evaluation: nothing executes once an exit is requested. The ideal evaluation is over then;
\* the deviation waits for its context to empty (the clock runs on: recorded as ended far beyond the limit)
EvalInstr == /\ phase = "eval" /\ cur.executed < cur.needed
             /\ LET t == clock + 1 IN
                IF exitreq THEN (IF EvalIsOwnExecution THEN clock' = t /\ Finish(TRUE, TRUE, t)
                                 ELSE clock' = clock + Max + Slack + 5 /\ Finish(FALSE, FALSE, clock + Max + Slack + 5))
                ELSE IF Expired(t) THEN clock' = t /\ exitreq' = TRUE /\ UNCHANGED <<created, budgetStart, phase, cur, runs, loop, idled, saved>>
                ELSE clock' = t /\ cur' = [cur EXCEPT !.executed = cur.executed + 1] /\ UNCHANGED <<created, budgetStart, phase, runs, loop, idled, exitreq, saved>>
EvalEnd == /\ phase = "eval" /\ cur.executed = cur.needed /\ cur.needed # 99
           /\ Finish(FALSE, FALSE, clock) /\ UNCHANGED clock

\* every script sleeps: a scheduler pass reads the clock for the wake-up test
Spin == /\ phase = "run" /\ cur.sleepleft > 0
        /\ LET t == clock + 1 IN
           IF DeadlineWhileAsleep /\ Expired(t) THEN clock' = t /\ Finish(TRUE, TRUE, t)
           ELSE clock' = t /\ cur' = [cur EXCEPT !.sleepleft = cur.sleepleft - 1] /\ UNCHANGED <<created, budgetStart, phase, runs, loop, idled, exitreq, saved>>

RunEndNormal == /\ phase = "run" /\ cur.sleepleft = 0 /\ cur.executed = cur.needed /\ cur.needed # 99
                /\ Finish(FALSE, FALSE, clock) /\ UNCHANGED clock

\* ---- while loop cap (unscheduled): one step = one evaluation of condition + body
LoopStart == \E b \in {"empty", "nonempty"} : runs = <<>> /\ phase = "idle" /\ clock = 0 /\ loop.done /\ loop.body = "none" /\ loop' = [iters |-> 0, counted |-> 0, body |-> b, done |-> FALSE]
                /\ UNCHANGED <<clock, created, budgetStart, phase, cur, runs, idled, exitreq, saved>>
LoopIter == /\ ~loop.done /\ runs = <<>> /\ phase = "idle" /\ loop.iters < Cap + 3
            /\ LET counts == loop.body = "nonempty" \/ EmptyBodyCounts
                   c2 == IF counts THEN loop.counted + 1 ELSE loop.counted
               IN IF Cap > 0 /\ c2 >= Cap THEN loop' = [loop EXCEPT !.iters = loop.iters + 1, !.counted = c2, !.done = TRUE]
                  ELSE loop' = [loop EXCEPT !.iters = loop.iters + 1, !.counted = c2]
            /\ UNCHANGED <<clock, created, budgetStart, phase, cur, runs, idled, exitreq, saved>>

Next == Idle \/ RunBegin \/ Instr \/ Spin \/ RunEndNormal \/ LoopStart \/ LoopIter \/ EvalBegin \/ EvalInstr \/ EvalEnd \/ StartRequest \/ NestedEval
Spec == Init /\ [][Next]_vars

InvRunEndsInTime == \A i \in 1..Len(runs) : RunEndsInTime(runs[i], Slack)
InvAbortReported == \A i \in 1..Len(runs) : AbortIsReported(runs[i]) /\ VmEmptyAfterAbort(runs[i])
InvLaterRuns == \A i \in 1..Len(runs) : LaterRunsUnaffected(runs[i])
InvWhileCapped == WhileCapped(loop.iters, Cap)
\* the execution in progress has not outlived its limit either (a run that never ends leaves no record to judge)
InvRunningInTime == (phase \in {"run", "eval"} /\ Max > 0) => clock <= cur.start + Max + Slack
=============================================================================
