------------------------------ MODULE Lex_Trace ------------------------------
(* Validation of recorded runs of the real front ends (driver command      *)
(* `front`) against the C10 formulas and, for the inputs enumerated by     *)
(* Lex_MC, against the scanners of Lex.tla.  The log (NDJSON, env TRACE):  *)
(*   {"e":"Reset","id":..,"kind":"sym|text|macro|include","syms":[..],     *)
(*    "cyc":bool,"cls":"<construct class>"}                                *)
(*   {"e":"Begin","id":..,"fe":"<front end>"}          before each run     *)
(*   {"e":"Obs","id":..,"fe":..,"ok":bool,"nerr":n,"ntok":n,"same":bool,   *)
(*    "ms":n,"steps":n,"cap":bool,"inb":bool,"fin":"eof|invalid|cap|-",    *)
(*    "toks":[{"k":..,"o":..,"n":..}]}                                     *)
(*   {"e":"Crash","id":..,"why":..,"wk":"timeout|exception|signal"}        *)
(*   {"e":"Scale","id":..,"fe":..,"fam":"<input family>","n1":bytes,       *)
(*    "ms1":n,"n2":bytes,"ms2":n}   one front end timed (normal build) on  *)
(*    two members of a family of inputs, the second four times as long     *)
(* Validation is total: every front-end run that is not explained goes to  *)
(* `bad` with the NAME OF THE FORMULA violated, the front end and - where  *)
(* the transcription of the pinned code predicts it - the named deviation  *)
(* of Lex.tla that explains it.  A token stream that differs from the      *)
(* transcription while every formula holds is model drift ("DRIFT-Tokens", *)
(* DESIGN.md 4), not a violation.  Prints "VERDICT <json>".                *)
EXTENDS Lex, Json, IOUtils, TLC

Log == ndJsonDeserialize(IOEnv.TRACE)

VARIABLES l, case, cur, dead, bad, nops, done
tvars == <<l, case, cur, dead, bad, nops, done>>

Tokenizers == {"sqftok", "cfgtok"}
Expanders == {"pp", "preprocess__"}
NoCase == [kind |-> "text", syms |-> <<>>, cyc |-> FALSE, cls |-> "other"]
ScannerOf(fe) == IF fe \in {"sqftok", "sqfparse", "compile"} THEN "sqf" ELSE "cfg"
SymFrontEnds == {"sqftok", "sqfparse", "compile", "cfgtok", "cfgparse", "configparse__"}

\* the named deviation of the transcribed code that explains a failure of front end fe on this case ("" if none)
RECURSIVE SetToStr(_)
SetToStr(S) == IF S = {} THEN "" ELSE LET x == CHOOSE y \in S : TRUE IN x \o (IF S = {x} THEN "" ELSE "+" \o SetToStr(S \ {x}))
Predicted(c, fe) ==
    IF c.kind = "sym" /\ fe \in SymFrontEnds THEN SetToStr(Scan(ScannerOf(fe), c.syms, CodeDevs).st.dev)
    ELSE IF c.kind = "macro" /\ c.cyc /\ fe \in Expanders THEN "UnboundedMacroRecursion"
    ELSE ""

\* ---- the formulas on one observation ----
ObsBounded(e) == e.fe \in Tokenizers => (~e.cap /\ e.inb)                 \* the scan needs <= 4*len+16 steps, offsets stay in the buffer
ObsResultOrDiagnostic(e) == e.ok \/ e.nerr >= 1
ObsDeterministic(e) == e.same
ObsRecursionReported(c, e) == (c.kind \in {"macro", "include"} /\ c.cyc /\ e.fe \in Expanders) => (~e.ok /\ e.nerr >= 1)
\* exact part: where the transcribed code takes no deviation, the real token stream is the model's
ObsTokens(c, e) ==
    (c.kind = "sym" /\ e.fe \in Tokenizers) =>
        LET r == Scan(ScannerOf(e.fe), c.syms, CodeDevs)
        IN r.st.dev = {} => (e.toks = r.st.toks /\ e.fin = r.st.diag /\ e.ntok = Len(r.st.toks))

WhyObs(c, e) ==
    IF e.fin = "machinery" THEN "MACHINERY-Driver"
    ELSE IF ~ObsBounded(e) THEN "Bounded"
    ELSE IF ~ObsResultOrDiagnostic(e) THEN "ResultOrDiagnostic"
    ELSE IF ~ObsDeterministic(e) THEN "Deterministic"
    ELSE IF ~ObsRecursionReported(c, e) THEN "ExpansionTerminates"
    ELSE IF ~ObsTokens(c, e) THEN "DRIFT-Tokens"
    ELSE ""
\* "time proportional to the input": over a fourfold growth of the input the time per byte may grow at most
\* 2.5-fold (linear 1x, n log n ~1.2x, quadratic 4x); runs under FloorMs are too short to be measured
FloorMs == 800
ObsTimeProportional(e) == e.ms2 <= FloorMs \/ e.ms2 * 20 <= 5 * (IF e.ms1 < 10 THEN 10 ELSE e.ms1) * ((e.n2 * 10) \div e.n1)   \* 2.5x (32-bit integers)
\* a run that did not come back: watchdog = Terminates; escaped C++ exception = NoThrow; signal, sanitizer abort = NoCrash
WhyCrash(e) == IF e.wk = "timeout" THEN "Terminates" ELSE IF e.wk = "exception" THEN "NoThrow" ELSE "NoCrash"

TraceInit == l = 1 /\ case = NoCase /\ cur = "-" /\ dead = FALSE /\ bad = <<>> /\ nops = 0 /\ done = FALSE

Consume ==
    /\ l <= Len(Log)
    /\ l' = l + 1
    /\ UNCHANGED done
    /\ LET e == Log[l] IN
       CASE e.e = "Reset" -> /\ case' = [kind |-> e.kind, syms |-> e.syms, cyc |-> e.cyc, cls |-> e.cls]
                             /\ cur' = "-" /\ dead' = FALSE /\ UNCHANGED <<bad, nops>>
         [] e.e = "Begin" -> cur' = e.fe /\ UNCHANGED <<case, dead, bad, nops>>
         [] e.e = "Crash" ->
                /\ bad' = IF dead THEN bad
                          ELSE Append(bad, [id |-> e.id, line |-> l, why |-> WhyCrash(e), op |-> cur, dev |-> Predicted(case, cur), info |-> e.why])
                /\ dead' = TRUE /\ UNCHANGED <<case, cur, nops>>
         [] e.e = "Obs" /\ ~dead ->
                LET w == WhyObs(case, e) IN
                IF w = "" THEN nops' = nops + 1 /\ UNCHANGED <<case, cur, dead, bad>>
                ELSE /\ bad' = Append(bad, [id |-> e.id, line |-> l, why |-> w, op |-> e.fe, dev |-> Predicted(case, e.fe), info |-> e.fin])
                     /\ UNCHANGED <<case, cur, dead, nops>>
         [] e.e = "Scale" ->
                IF ObsTimeProportional(e) THEN nops' = nops + 1 /\ UNCHANGED <<case, cur, dead, bad>>
                ELSE /\ bad' = Append(bad, [id |-> e.id, line |-> l, why |-> "TimeProportional", op |-> e.fe, dev |-> "", info |-> e.fam])
                     /\ UNCHANGED <<case, cur, dead, nops>>
         [] OTHER -> UNCHANGED <<case, cur, dead, bad, nops>>

Conclude ==
    /\ l = Len(Log) + 1
    /\ ~done
    /\ done' = TRUE
    /\ PrintT("VERDICT " \o ToJson([lines |-> Len(Log), ops |-> nops, bad |-> bad]))
    /\ UNCHANGED <<l, case, cur, dead, bad, nops>>

TraceSpec == TraceInit /\ [][Consume \/ Conclude]_tvars
=============================================================================
