----------------------------- MODULE Stack_MC -----------------------------
(* Design check of Stack.tla: every sequence of abstract actions up to a depth, small values. *)
EXTENDS Stack

CONSTANTS Depth, MaxFrames

VARIABLES c, prev, kind, nf, steps
vars == <<c, prev, kind, nf, steps>>

Vals == {"a", "b"}
Pushes == {<<>>, <<"a">>, <<"a", "b">>}

Init == c = StartCtx(1) /\ prev = StartCtx(1) /\ kind = "init" /\ nf = 1 /\ steps = 0

Step(d, k) == /\ steps < Depth /\ steps' = steps + 1 /\ prev' = c /\ c' = d /\ kind' = k

Next ==
    \/ \E n \in 0..2, p \in Pushes : CanCompute(c, n) /\ Step(Compute(c, n, p), "compute") /\ UNCHANGED nf
    \/ \E n \in 0..2 : CanCompute(c, n) /\ nf < MaxFrames /\ Step(Enter(c, n, nf + 1), "enter") /\ nf' = nf + 1
    \/ Top(c) > 0 /\ Step(Clear(c), "clear") /\ UNCHANGED nf
    \/ Top(c) > 0 /\ Step(Done(c), "done") /\ UNCHANGED nf
    \/ \E k \in 0..(Top(c) - 1), v \in {<<>>, <<"a">>} : Top(c) > 0 /\ Step(Leave(c, k, v), "leave") /\ UNCHANGED nf
    \/ \E k \in 1..(Top(c) - 1), j \in {<<>>, <<"b">>} : Step(Unwind(c, k, j), "unwind") /\ UNCHANGED nf

Spec == Init /\ [][Next]_vars

InvPartition == Partition(c)
InvNoStealing == kind # "init" => NoStealingU(prev, c, kind = "unwind")
InvOneValue == kind \in {"done", "leave"} => OneValueLoose(prev, c)
InvOneValueStrict == kind = "done" => OneValueStrict(prev, c)
InvStatementClean == kind = "clear" => StatementClean(c)
=============================================================================
