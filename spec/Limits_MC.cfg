SPECIFICATION Spec
CONSTANTS
  BudgetFromRunStart = TRUE
  DeadlineWhileAsleep = TRUE
  EmptyBodyCounts = TRUE
  Max = 12
  Slack = 2
  Cap = 3
INVARIANTS InvRunEndsInTime InvAbortReported InvLaterRuns InvWhileCapped
