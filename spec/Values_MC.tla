----------------------------- MODULE Values_MC -----------------------------
EXTENDS Values
CONSTANT MaxLen, QuoteDoubles   \* QuoteDoubles = FALSE: mutated printer that does not double quotes (non-vacuity)
Chars == {"a", DQ, SQ, "\n", " "}
RECURSIVE Strings(_)
Strings(n) == IF n = 0 THEN {<<>>} ELSE LET s == Strings(n - 1) IN s \cup { Append(x, c) : x \in s, c \in Chars }
VARIABLE str
Init == str \in Strings(MaxLen)
Next == UNCHANGED str
Spec == Init /\ [][Next]_str
Printer(s) == IF QuoteDoubles THEN Quote(s) ELSE <<DQ>> \o s \o <<DQ>>
InvQuote == Unquote(Printer(str)) = [ok |-> TRUE, s |-> str]
InvSingle == SingleQuoteRoundTrips(str)
=============================================================================
