SPECIFICATION TraceSpec
CONSTANTS
  NoticeAfterNext = TRUE
  FlagClearedAtRunStart = TRUE
CHECK_DEADLOCK FALSE
