SPECIFICATION TraceSpec
CONSTANTS
  Insts = {1, 2}
  DeadlineIsFailure = TRUE
CHECK_DEADLOCK FALSE
