------------------------------ MODULE Heap_MC ------------------------------
(* Design check and history generator for Heap.tla.                        *)
(* Design check: BFS over all operation sequences, the C08 formulas as     *)
(* invariants on (prev, lastop, st).                                       *)
(* Generator (Emit = TRUE): every generated transition is printed as the   *)
(* history that leads to it ("OUT <json>"), one implementation test per    *)
(* transition of the state graph.  hist is hidden from the fingerprint by  *)
(* the VIEW, so it does not multiply states.                               *)
EXTENDS Heap, Json

CONSTANTS Depth, Emit, Profile

VARIABLES st, prev, lastop, hist

Lit(k) == [k |-> "lit", v |-> k]
Var(x) == [k |-> "var", x |-> x]
Operands == {Lit(7)} \cup {Var(x) : x \in Vars}
Idx == {-1, 0, 1, 3}

OpsFull ==
         { [op |-> "new", x |-> x, lits |-> l] : x \in Vars, l \in {<<>>, <<0>>, <<1, 0>>} }
    \cup { [op |-> "alias", x |-> p[1], y |-> p[2]] : p \in { q \in Vars \X Vars : q[1] # q[2] } }
    \cup { [op |-> "set", x |-> x, i |-> i, val |-> v] : x \in Vars, i \in Idx, v \in Operands }
    \cup { [op |-> "pushBack", x |-> x, val |-> v] : x \in Vars, v \in Operands }
    \cup { [op |-> "pushBackUnique", x |-> x, val |-> v] : x \in Vars, v \in Operands }
    \cup { [op |-> "append", x |-> x, y |-> y] : x \in Vars, y \in Vars }
    \cup { [op |-> "deleteAt", x |-> x, i |-> i] : x \in Vars, i \in Idx }
    \cup { [op |-> "deleteRange", x |-> x, i |-> i, n |-> n] : x \in Vars, i \in {-1, 0, 1, 3}, n \in {0, 1, 5} }
    \cup { [op |-> "resize", x |-> x, n |-> n] : x \in Vars, n \in {-1, 0, 1, 3} }
    \cup { [op |-> "reverse", x |-> x] : x \in Vars }
    \cup { [op |-> "sort", x |-> x, asc |-> b] : x \in Vars, b \in BOOLEAN }
    \cup { [op |-> "copy", x |-> x, y |-> y] : x \in Vars, y \in Vars }
    \cup { [op |-> "concat", x |-> x, y |-> y, z |-> z] : x \in Vars, y \in Vars, z \in Vars }
    \cup { [op |-> "minus", x |-> x, y |-> y, z |-> z] : x \in Vars, y \in Vars, z \in Vars }
    \cup { [op |-> "selectRange", x |-> x, y |-> y, i |-> i, n |-> n] : x \in Vars, y \in Vars, i \in {-1, 0, 1, 3}, n \in {-1, 1, 5} }
    \cup { [op |-> "apply", x |-> x, y |-> y] : x \in Vars, y \in Vars }
    \cup { [op |-> "filter", x |-> x, y |-> y] : x \in Vars, y \in Vars }

\* the inserting / aliasing core: everything that can build or break sharing and cycles
OpsCore == { o \in OpsFull : o.op \in {"new", "alias", "set", "pushBack", "pushBackUnique", "append", "copy", "concat"}
                              /\ (o.op = "set" => o.i \in {0, 1})
                              /\ (o.op = "new" => o.lits \in {<<>>, <<0>>}) }

Ops == IF Profile = "core" THEN OpsCore ELSE OpsFull

vars == <<st, prev, lastop, hist>>

Init == /\ st = InitState
        /\ prev = InitState
        /\ lastop = [op |-> "init"]
        /\ hist = <<>>

Next == \E o \in Ops :
          /\ Len(hist) < Depth
          /\ Enabled(st, o)
          /\ st' = Apply(st, o)
          /\ prev' = st
          /\ lastop' = o
          /\ hist' = Append(hist, o)
          /\ (Emit => PrintT("OUT " \o ToJson(hist')))

Spec == Init /\ [][Next]_vars

View == <<st, Len(hist)>>
\* the design check must see every transition: the step invariants read prev and lastop
ViewStep == <<st, prev, lastop, Len(hist)>>

\* ---- invariants (the C08 formulas) ----
InvAcyclic == Acyclic(st)
InvAliases == AliasesAgree(st)
InvFresh == lastop.op # "init" => FreshIsIndependent(prev, lastop, st)
InvRefused == lastop.op # "init" => RefusedLeavesUnchanged(prev, lastop, st)
=============================================================================
