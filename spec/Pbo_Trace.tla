------------------------------ MODULE Pbo_Trace ------------------------------
(* Validation of what the real PBO reader showed against Pbo.tla.           *)
(* The log (NDJSON, env TRACE) holds one line per replayed case:            *)
(*   {"e":"Reset","id":..}                                                  *)
(*   {"e":"Case","id":..,                                                   *)
(*    "arch":{"props":[[k,v]..],"entries":[{"name","size","blob"}..]},      *)
(*    "fault":{"kind","n","i","delta"},                                     *)
(*    "filelen": <size of the materialised file, 0 when absent>,            *)
(*    "obs":{"good":b,"props":[[k,v]..],"entries":[{"name","size"}..],      *)
(*           "direct":[{"name","st","hex"}..],"vfs":[{"name","st","hex"}..],*)
(*           "crash":"" | <why>,"stage": <stage that did not finish>,       *)
(*           "before":[{"name","sha"}..],"after":[{"name","sha"}..]}}       *)
(* blob = hex text of the bytes the independent packer stored for the       *)
(* entry; hex = hex text of the bytes the implementation returned.          *)
(* Validation is total: for every case TLC recomputes the layout, the       *)
(* intact set and the reference outcome and records the NAME of every       *)
(* formula the observation contradicts together with the fault class (or,   *)
(* for Faithful, the reader phase).  The final state prints                 *)
(* "VERDICT <json>".                                                        *)
EXTENDS Pbo, TLC, Json, IOUtils

Log == ndJsonDeserialize(IOEnv.TRACE)

VARIABLES l, bad, nops, done
tvars == <<l, bad, nops, done>>

\* the binding itself: the materialised file is the one the layout describes, the fault is
\* well-formed, and the per-entry observations are about the packed entries (else the case is void)
Binding(e) ==
    LET a == e.arch
        f == e.fault
    IN /\ f.kind \in {"none", "truncate", "corruptlen", "absent", "corruptorig"}
       /\ f.kind = "corruptorig" => (f.i \in 1..NE(a) /\ f.delta # 0)
       /\ f.kind = "truncate" => (f.n >= 0 /\ f.n < Total(a))
       /\ f.kind = "corruptlen" => (f.i \in 1..NE(a) /\ f.delta # 0 /\ a.entries[f.i].size + f.delta >= -8)
       /\ e.filelen = FileLen(a, f)
       /\ \A i, j \in 1..NE(a) : i # j => a.entries[i].name # a.entries[j].name
       /\ (f.kind = "absent" => e.obs.before = <<>>)
       /\ (f.kind # "absent" => Len(e.obs.before) = 1)
       /\ (e.obs.crash = "" => (Len(e.obs.direct) = NE(a) /\ Len(e.obs.vfs) = NE(a)))
       /\ \A j \in 1..NE(a) : (j <= Len(e.obs.direct) => e.obs.direct[j].name = a.entries[j].name)
       /\ \A j \in 1..NE(a) : (j <= Len(e.obs.vfs) => e.obs.vfs[j].name = a.entries[j].name)

BadOf(e, line) ==
    IF ~Binding(e) THEN <<[id |-> e.id, line |-> line, why |-> "MACHINERY-Binding", op |-> "case"]>>
    ELSE LET v == Violations(e.arch, e.fault, e.obs)
         IN [k \in 1..Len(v) |-> [id |-> e.id, line |-> line, why |-> v[k].why, op |-> v[k].op]]

\* how often the antecedents of the formulas were met by the replayed cases (non-vacuity)
CaseLines == { i \in 1..Len(Log) : Log[i].e = "Case" }
RefOf(i) == Read(Log[i].arch, Log[i].fault)
Stats ==
    LET faulty == { i \in CaseLines : Log[i].fault.kind # "none" }
        exposing == { i \in faulty : RefOf(i).k = "Exposes" }
    IN [noFault |-> Cardinality(CaseLines \ faulty),
        noFaultWithPrefixAndEntries |-> Cardinality({ i \in CaseLines \ faulty : HasPrefix(Log[i].arch) /\ NE(Log[i].arch) > 0 }),
        absent |-> Cardinality({ i \in faulty : Log[i].fault.kind = "absent" }),
        truncate |-> Cardinality({ i \in faulty : Log[i].fault.kind = "truncate" }),
        corruptLen |-> Cardinality({ i \in faulty : Log[i].fault.kind = "corruptlen" }),
        refRejects |-> Cardinality(faulty \ exposing),
        refExposesAll |-> Cardinality({ i \in exposing : RefOf(i).S = 1..NE(Log[i].arch) }),
        refExposesSome |-> Cardinality({ i \in exposing : RefOf(i).S # {} /\ RefOf(i).S # 1..NE(Log[i].arch) }),
        refExposesNone |-> Cardinality({ i \in exposing : RefOf(i).S = {} /\ NE(Log[i].arch) > 0 }),
        implReturnedBytesUnderFault |-> Cardinality({ i \in faulty :
              \E j \in 1..Len(Log[i].obs.direct) : Returned(Log[i].obs.direct[j]) })]

TraceInit == l = 1 /\ bad = <<>> /\ nops = 0 /\ done = FALSE

Consume ==
    /\ l <= Len(Log)
    /\ l' = l + 1
    /\ UNCHANGED done
    /\ LET e == Log[l]
       IN IF e.e = "Case"
          THEN bad' = bad \o BadOf(e, l) /\ nops' = nops + 1
          ELSE UNCHANGED <<bad, nops>>

Finish ==
    /\ l = Len(Log) + 1
    /\ ~done
    /\ done' = TRUE
    /\ PrintT("VERDICT " \o ToJson([lines |-> Len(Log), ops |-> nops, bad |-> bad, stats |-> Stats]))
    /\ UNCHANGED <<l, bad, nops>>

TraceSpec == TraceInit /\ [][Consume \/ Finish]_tvars
=============================================================================
